#!/usr/bin/env python3
"""Regenerates MANIFEST.json from the table below (kept valid at all times)."""
import json, subprocess
ALL = ["C%02d" % i for i in range(1, 21)]
MC, FE, EX = "model_checking", "fault_enumeration", "exploration"
checks = {
 "C01": dict(engine="txgraph", level=MC, ref="4/C01",
   text="Explicit-state BFS over the real wtxmgr.Store to fixpoint for every transaction-graph universe in the bound; in every reached state Balance for every (minconf, sync height), UnspentOutputs and OutputsToWatch are compared with a reference ledger written from the statement.",
   note="Small scope: <=3 generated (+curated 4-tx) transactions, heights 1..3, two block ids per height, coinbase maturity scaled to 2; events applied as wallet.addRelevantTx does; reference ledger trusted.",
   technique="explicit-state model checking of the implementation (BFS with state hashing to fixpoint) against a lock-step reference model"),
 "C02": dict(engine="txgraph", level=MC, ref="4/C02",
   text="Same state graph; states are grouped by final facts and every group must be observationally identical (balances, unspent, details, unmined set) and identical to the direct construction of those facts, which is executed explicitly.",
   note="Same bounds as C01; only observations are compared (raw bytes legitimately depend on the path).",
   technique="explicit-state model checking: observational equivalence of all states with equal final facts + differential against direct construction"),
 "C13": dict(engine="txgraph", level=MC, ref="4/C13",
   text="Same state graph; in every state TxDetails, UniqueTxDetails for every block and nil, RangeTransactions for every (begin,end) in both directions and PreviousPkScripts are compared with the reference ledger.",
   note="Same bounds as C01; order inside the unmined group of RangeTransactions is unspecified and not compared.",
   technique="explicit-state model checking of the implementation against a lock-step reference model"),
}
pending_reason = "check not built yet in this session (planned, see DESIGN.md section 4)"
def sh(c): return subprocess.run(c, shell=True, capture_output=True, text=True).stdout.strip()
hook_commits = [l.split()[0] for l in sh("git -C /repo log --format='%h %s' | grep -i 'verif hook' || true").splitlines()]
m = {
 "version": 1,
 "setup_cmd": "./setup.sh",
 "hooks": {"guard": "verif", "enable": "go build -tags verif (done by ./vcheck)",
           "baseline_off_cmd": "/verif/baseline_off.sh", "source_commits": hook_commits, "add_only": True},
 "engines": [
  {"name": "txgraph", "path": "harness/txgraph", "serves_properties": ["C01","C02","C12","C13","C14","C10"], "kind_free_text": "explicit-state BFS over the real wtxmgr.Store (state = canonical namespace dump) with a reference ledger in lock-step"},
 ],
 "checks": [], "not_applicable": [],
 "notes": "All checks: ./vcheck <id> quick|thorough; replay: ./vcheck replay <file>. See DESIGN.md.",
}
for pid in ALL:
    c = checks.get(pid)
    if not c:
        m["not_applicable"].append({"property_id": pid, "reason": pending_reason}); continue
    e = {"property_id": pid, "quick_cmd": f"./vcheck {pid} quick", "thorough_cmd": f"./vcheck {pid} thorough",
         "evidence_file": f"/verif/evidence/{pid}.json", "replay_cmd_template": "./vcheck replay {path}",
         "engine": c["engine"],
         "level_claimed": {"category": c["level"], "text": c["text"], "design_ref": "DESIGN.md " + c["ref"]},
         "level_note": c["note"], "technique": c["technique"]}
    m["checks"].append(e)
json.dump(m, open("/verif/MANIFEST.json", "w"), indent=1)
print("claimed:", [c["property_id"] for c in m["checks"]])
