#!/usr/bin/env python3
"""Builds /verif/SEEDED.md from /verif/seeded/*/meta.json (which checks catch which seeded change)."""
import json, glob, os
rows=[]
for d in sorted(glob.glob('/verif/seeded/*/')):
    try: m=json.load(open(d+'meta.json'))
    except Exception: continue
    name=os.path.basename(d.rstrip('/'))
    c=m.get('confirmed_by_me',{})
    ok = c.get('demo_passes_on_unchanged_tree') and c.get('demo_fails_with_change') and c.get('affected_suites_pass_with_change')
    caught=[k for k,v in m.get('checks_run_against_it',{}).items() if v.get('exit')==1]
    missed=[k for k,v in m.get('checks_run_against_it',{}).items() if v.get('exit')==0]
    sigs=[]
    for k,v in m.get('checks_run_against_it',{}).items():
        if v.get('exit')==1:
            sigs += [s for s in v.get('signatures',[]) if not s.isdigit()][:2]
    rows.append((name, m.get('property'), (m.get('summary') or '')[:160].replace('\n',' ').replace('|','/'), (m.get('needs_to_manifest') or '')[:160].replace('\n',' ').replace('|','/'), 'yes' if ok else 'NO', ', '.join(caught) or '-', ', '.join(missed) or '-', '; '.join(sigs)[:160]))
out=['# Seeded property-breaking changes and which checks catch them','',
 'Each change was written by a fresh sub-agent that saw only the property text and its own scratch worktree. I confirmed each one myself (`tools/seedeval.sh`): the demonstration passes on the unchanged tree and fails with the change, the affected module suites still pass with the change; then the patch was applied to /repo, the checks were run (quick tier) and /repo was restored. Files: `/verif/seeded/<id>/` (patch.diff, demonstration, meta.json, check logs).','',
 '| id | property | change | needs to manifest | confirmed | caught by (exit 1) | run but silent | signatures |','|---|---|---|---|---|---|---|---|']
for r in rows: out.append('| '+' | '.join(str(x) for x in r)+' |')
open('/verif/SEEDED.md','w').write('\n'.join(out)+'\n')
print(len(rows),'rows; not caught by own property check:',[r[0] for r in rows if r[1] not in r[5]])
