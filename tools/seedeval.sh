#!/bin/bash
# tools/seedeval.sh <ID> <n> [extra check ids...]: confirm a seeded change (demo fails with it / passes without, affected suites pass),
# then run the property's check(s) against it in /repo and always revert. Results go to /verif/seeded/<ID>-<n>/.
set -u
ID=$1; N=$2; shift 2; EXTRA="$*"
PHASE=${SEED_PHASE:-all}   # all | confirm (scratch worktree only) | check (/repo only, after confirm)
export GOFLAGS=-mod=mod GOPROXY=off GOSUMDB=off GOTOOLCHAIN=local
WT=/tmp/seed/$ID; OUT=/tmp/seed/$ID.out; D=/verif/seeded/$ID-$N
diff=$OUT/$ID-$N.diff
demo=$(ls $OUT/$ID-${N}_demo* 2>/dev/null | grep -v "\.txt$" | head -1)
[ -f "$diff" ] || { echo "no diff $diff"; exit 2; }
mkdir -p $D; cp $diff $D/patch.diff; [ -n "$demo" ] && cp $demo $D/; cp $OUT/$ID-$N.meta.json $D/agent_meta.json 2>/dev/null
if [ "$PHASE" != check ]; then
git -C $WT checkout -q -- . ; git -C $WT clean -fdq
log=$D/confirm.log; : > $log
pkgdir=""
if [ -n "$demo" ] && [[ "$demo" == *_test.go ]]; then
  pk=$(grep -m1 '^package ' $demo | awk '{print $2}' | sed 's/_test$//')
  case $pk in wtxmgr) pkgdir=wtxmgr;; waddrmgr) pkgdir=waddrmgr;; wallet) pkgdir=wallet;; chain) pkgdir=chain;; bdb) pkgdir=walletdb/bdb;; walletdb) pkgdir=walletdb;; txauthor) pkgdir=wallet/txauthor;; txsizes) pkgdir=wallet/txsizes;; txrules) pkgdir=wallet/txrules;; snacl) pkgdir=snacl;; migration) pkgdir=walletdb/migration;; *) pkgdir=$(dirname $(grep -m1 '^+++ b/' $diff | sed 's#+++ b/##'));; esac
  tests=$(grep -o '^func Test[A-Za-z0-9_]*' $demo | sed 's/func //' | paste -sd'|')
  rundemo() { cp $demo $WT/$pkgdir/zz_seed_demo_test.go; (cd $WT/$pkgdir && go test -count=1 -run "^($tests)\$" . ) >> $log 2>&1; rc=$?; rm -f $WT/$pkgdir/zz_seed_demo_test.go; return $rc; }
else
  rundemo() { (cd $WT && mkdir -p zz_seed_demo && cp $demo zz_seed_demo/main.go && go run ./zz_seed_demo) >> $log 2>&1; rc=$?; rm -rf $WT/zz_seed_demo; return $rc; }
fi
echo "== demo on unchanged tree" >> $log; rundemo; d0=$?
git -C $WT apply $diff || { echo "patch does not apply"; exit 2; }
echo "== demo with change" >> $log; rundemo; d1=$?
# affected modules
mods=$(grep '^+++ b/' $diff | sed 's#+++ b/##' | while read f; do case $f in wtxmgr/*) echo wtxmgr;; walletdb/*) echo walletdb;; wallet/txauthor/*) echo wallet/txauthor;; wallet/txsizes/*) echo wallet/txsizes;; wallet/txrules/*) echo wallet/txrules;; *) echo .;; esac; done | sort -u)
suite=0
for m in $mods; do
  echo "== suite module $m with change" >> $log
  if [ "$m" = "." ]; then
    pk=$(grep '^+++ b/' $diff | sed 's#+++ b/##' | xargs -n1 dirname | sort -u | sed 's#^#./#' | tr '\n' ' ')
    (cd $WT && go build ./... && go test -count=1 $pk ./wallet/... ./waddrmgr/... ./chain/... 2>&1 ) > $D/suite.log 2>&1
    cat $D/suite.log >> $log
    grep -P "^FAIL\t|build failed" $D/suite.log | grep -vP "^FAIL\tgithub.com/btcsuite/btcwallet/chain\t" | grep -q . && suite=1
    # timing-based tests of package chain flake under machine load; they only count when the change touches chain/
    flaky="TestBitcoindEvents"; grep -q '^+++ b/chain/' $diff || flaky="TestBitcoindEvents|TestJitterTicker|TestPrunedBlockDispatcher"
    grep "^--- FAIL" $D/suite.log | grep -vE "$flaky" | grep -q . && suite=1
  else
    (cd $WT/$m && go test -count=1 ./... ) >> $log 2>&1 || suite=1
  fi
done
git -C $WT checkout -q -- . ; git -C $WT clean -fdq
echo "confirm: demo_unchanged_rc=$d0 demo_changed_rc=$d1 suite_fail=$suite mods=$(echo $mods)" | tee -a $log
echo "$d0 $d1 $suite" > $D/confirm.rc
fi
[ "$PHASE" = confirm ] && exit 0
read d0 d1 suite < $D/confirm.rc || { echo "no confirm.rc"; exit 2; }
# run checks in /repo
[ -n "$(git -C /repo status --porcelain)" ] && { echo "/repo dirty"; exit 2; }
git -C /repo apply $diff || { echo "patch does not apply to /repo"; exit 2; }
res=""
for c in $ID $EXTRA; do
  timeout ${SEED_CHECK_TIMEOUT:-900} /verif/vcheck $c quick > $D/check-$c.log 2>&1; rc=$?
  # (a changed tree can make an exploration unbounded or a call hang: bounded wait, leftovers removed)
  [ $rc = 124 ] && { pkill -f '^/verif/bin/vh' ; sleep 2; }
  sigs=$(grep "signature:" $D/check-$c.log | sed 's/.*signature: //' | head -6 | paste -sd';')
  echo "check $c quick exit=$rc sigs=[$sigs]"; res="$res $c:quick:$rc"
done
git -C /repo checkout -q -- . ; git -C /repo clean -fdq -e nothing >/dev/null 2>&1
python3 - "$D" "$ID" "$N" "$d0" "$d1" "$suite" "$res" <<'PY'
import json,sys,os,glob
D,ID,N,d0,d1,suite,res=sys.argv[1:8]
try: am=json.load(open(D+'/agent_meta.json'))
except Exception: am={}
checks={}
for f in glob.glob(D+'/check-*.log'):
    c=os.path.basename(f)[6:-4]
    txt=open(f).read()
    checks[c]={"exit": next((int(x.split(':')[2]) for x in res.split() if x.startswith(c+':')),None),
               "signatures":[l.split('signature: ')[1].strip() for l in txt.splitlines() if 'signature: ' in l][:10]}
meta={"property":ID,"change":int(N),"summary":am.get("summary"),"files_changed":am.get("files_changed"),
      "needs_to_manifest":am.get("needs_to_manifest"),
      "confirmed_by_me":{"demo_passes_on_unchanged_tree": d0=="0","demo_fails_with_change": d1!="0","affected_suites_pass_with_change": suite=="0"},
      "checks_run_against_it":checks,
      "what_i_ran":"tools/seedeval.sh %s %s: demo test in scratch worktree with and without the patch, affected module suites with the patch, then `git -C /repo apply` + ./vcheck <id> quick + `git -C /repo checkout -- .`"%(ID,N)}
json.dump(meta,open(D+'/meta.json','w'),indent=1)
print(json.dumps(meta["confirmed_by_me"]), {k:(v["exit"],v["signatures"][:3]) for k,v in checks.items()})
PY
