#!/bin/bash
# tools/finalsweep.sh: every quick check on the clean tree (refreshes /verif/evidence), then schema validation
cd /verif
[ -n "$(git -C /repo status --porcelain)" ] && { echo "/repo dirty"; exit 2; }
for id in C01 C02 C03 C04 C05 C06 C07 C08 C09 C10 C11 C12 C13 C14 C15 C16 C17 C18 C19 C20; do
  s=$(date +%s); timeout 1800 ./vcheck $id quick > /dev/shm/q-$id.log 2>&1; rc=$?; e=$(date +%s)
  echo "$id exit=$rc secs=$((e-s)) viol=$(grep -c '^VIOLATION' /dev/shm/q-$id.log) known=$(grep -c '^KNOWN-FINDING' /dev/shm/q-$id.log)"
done
python3-vt - <<'PY'
import json,jsonschema,glob
sch=json.load(open('/root/.vp/EVIDENCE.schema.json'))
bad=0
for f in sorted(glob.glob('/verif/evidence/C*.json')):
    try:
        d=json.load(open(f)); jsonschema.validate(d,sch)
        c=d.get('coverage',{})
        print(f.split('/')[-1], 'ok', 'violations=%s'%len(d.get('violations',[])) if isinstance(d.get('violations'),list) else '', 'exhaustive=%s'%c.get('exhaustive'), 'nontrivial=%s'%c.get('distinct_nontrivial'))
    except Exception as e:
        bad+=1; print(f,'INVALID',str(e)[:200])
print('invalid:',bad)
PY
