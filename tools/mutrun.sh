#!/bin/bash
# tools/mutrun.sh <file-in-repo> <python-regex-old> <new> <check-id>... : apply a one-line mutation to /repo,
# run the checks (quick), always revert. Prints exit codes.
f=$1; old=$2; new=$3; shift 3
cd /repo || exit 2
[ -n "$(git status --porcelain)" ] && { echo "repo dirty"; exit 2; }
python3 - "$f" "$old" "$new" <<'PY' || { git checkout -- .; exit 2; }
import sys,re
f,old,new=sys.argv[1:4]
s=open(f).read()
n=len(re.findall(old,s))
if n!=1:
    print("pattern matches",n,"times"); sys.exit(1)
open(f,'w').write(re.sub(old,lambda m:new,s))
PY
git diff | grep '^[-+]' | grep -v '^[-+][-+]'
for c in "$@"; do
  /verif/vcheck $c quick > /tmp/mut.$c.log 2>&1; rc=$?
  echo "check $c exit=$rc  $(grep -c '^VIOLATION' /tmp/mut.$c.log) violation lines; $(grep -m1 'signature' /tmp/mut.$c.log)"
done
git checkout -- .
