#!/bin/bash
# tools/withpatch.sh <patch.diff|none> <timeout-seconds> <command...>
# Serialises every use of /repo's working tree between concurrent workers: takes a lock, checks /repo is
# clean, applies the patch (unless "none"), runs the command (bounded), ALWAYS restores /repo, releases.
set -u
P=$1; T=$2; shift 2
exec 9>/dev/shm/verif-repo.lock
flock 9
if [ -n "$(git -C /repo status --porcelain)" ]; then echo "withpatch: /repo dirty, restoring"; git -C /repo checkout -q -- . ; git -C /repo clean -fdq; fi
if [ "$P" != none ]; then git -C /repo apply "$P" || { echo "withpatch: patch does not apply"; exit 3; }; fi
timeout "$T" "$@"; rc=$?
[ $rc = 124 ] && { pkill -f '^/verif/bin/vh' ; sleep 1; }
git -C /repo checkout -q -- . ; git -C /repo clean -fdq
exit $rc
