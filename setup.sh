#!/bin/bash
# Builds the framework offline from files on disk (pre-warms the build cache
# and pre-builds every check binary; the checks rebuild incrementally from
# /repo's current tree on every run).
set -e
export GOFLAGS=-mod=mod GOPROXY=off GOSUMDB=off GOTOOLCHAIN=local
export GOCACHE=/verif/.cache/go-build
mkdir -p /verif/bin /verif/evidence /verif/replays /verif/.cache
cd /verif
for id in C01 C14 C18 C16 C09; do
  VERIF_BUILD_ONLY=1 ./vcheck $id quick || { echo "setup: pre-build of $id failed" >&2; exit 1; }
done
echo setup ok
