#!/bin/bash
# Builds the framework offline from files on disk (pre-warms the build cache).
set -e
export GOFLAGS=-mod=mod GOPROXY=off GOSUMDB=off GOTOOLCHAIN=local
export GOCACHE=/verif/.cache/go-build
mkdir -p /verif/bin /verif/evidence /verif/replays /verif/.cache
cd /verif/harness
cat /repo/go.sum go.sum.extra 2>/dev/null | sort -u > go.sum
go build -tags verif -o /verif/bin/vh ./cmd/vh
[ -x /verif/setup-extra.sh ] && /verif/setup-extra.sh
echo setup ok
