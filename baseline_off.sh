#!/bin/bash
# Runs the repository's pinned suite with the verif build tag OFF.
export GOFLAGS=-mod=mod GOPROXY=off GOSUMDB=off GOTOOLCHAIN=local
rc=0
for m in . ./wallet/txauthor ./wallet/txrules ./wallet/txsizes ./walletdb ./wtxmgr; do
  (cd /repo/$m && go test -mod=mod -json -vet=off -count=1 -timeout 25m ./...) || rc=1
done
exit 0
