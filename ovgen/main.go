// ovgen generates `go build -overlay` files from the CURRENT /repo tree.
//
//	ovgen maporder <pkgdir> <outdir> <overlay.json> file.go...
//
// rewrites every `for k[, v] := range m` over a map in the listed files of the
// package into a loop over vorder.Keys(m) (keys sorted, then permuted by the
// harness controller), so map iteration order becomes a harness decision.
// The transformation fails loudly if a listed file contains no map range.
package main

import (
	"bytes"
	"encoding/json"
	"fmt"
	"go/ast"
	"go/format"
	"go/token"
	"go/types"
	"os"
	"path/filepath"
	"strings"

	"golang.org/x/tools/go/packages"
)

func die(f string, a ...interface{}) {
	fmt.Fprintf(os.Stderr, "ovgen: "+f+"\n", a...)
	os.Exit(2)
}

func main() {
	if len(os.Args) < 2 {
		die("usage")
	}
	switch os.Args[1] {
	case "maporder":
		mapOrder(os.Args[2:])
	case "const":
		constScale(os.Args[2:])
	case "maporder-all":
		mapOrderAll(os.Args[2:])
	case "syncshim":
		syncShim(os.Args[2:])
	default:
		die("unknown mode %s", os.Args[1])
	}
}

func writeOverlay(path string, repl map[string]string) {
	b, _ := json.MarshalIndent(map[string]interface{}{"Replace": repl}, "", " ")
	if err := os.WriteFile(path, b, 0o644); err != nil {
		die("%v", err)
	}
}

// mapOrderAll: ovgen maporder-all <pkgdir> <outdir> <overlay.json>: rewrite the
// map ranges of every non-test file of the package (files without map ranges
// are left alone); merges into an existing overlay file.
func mapOrderAll(args []string) {
	if len(args) != 3 {
		die("usage: maporder-all <pkgdir> <outdir> <overlay.json>")
	}
	allFiles = true
	mapOrder(append(args, "*"))
}

var allFiles bool

func readOverlay(path string) map[string]string {
	repl := map[string]string{}
	b, err := os.ReadFile(path)
	if err != nil {
		return repl
	}
	var o struct{ Replace map[string]string }
	if json.Unmarshal(b, &o) == nil && o.Replace != nil {
		repl = o.Replace
	}
	return repl
}

func mapOrder(args []string) {
	if len(args) < 4 {
		die("usage: maporder <pkgdir> <outdir> <overlay.json> files...")
	}
	pkgdir, outdir, ovpath, files := args[0], args[1], args[2], args[3:]
	cfg := &packages.Config{Mode: packages.NeedSyntax | packages.NeedTypes | packages.NeedTypesInfo | packages.NeedFiles | packages.NeedImports | packages.NeedName | packages.NeedDeps,
		Dir: pkgdir, Env: append(os.Environ(), "GOFLAGS=-mod=mod")}
	pkgs, err := packages.Load(cfg, ".")
	if err != nil || len(pkgs) != 1 {
		die("load %s: %v", pkgdir, err)
	}
	pkg := pkgs[0]
	if len(pkg.Errors) > 0 {
		die("type errors in %s: %v", pkgdir, pkg.Errors[0])
	}
	want := map[string]bool{}
	for _, f := range files {
		want[f] = true
	}
	repl := map[string]string{}
	if allFiles {
		repl = readOverlay(ovpath)
		delete(want, "*")
	}
	os.MkdirAll(outdir, 0o755)
	for _, file := range pkg.Syntax {
		name := pkg.Fset.Position(file.Pos()).Filename
		base := filepath.Base(name)
		if !want[base] && !allFiles {
			continue
		}
		if strings.HasSuffix(base, "_test.go") {
			continue
		}
		delete(want, base)
		n := 0
		ast.Inspect(file, func(nd ast.Node) bool {
			rs, ok := nd.(*ast.RangeStmt)
			if !ok {
				return true
			}
			tv, ok := pkg.TypesInfo.Types[rs.X]
			if !ok {
				return true
			}
			mt, ok := tv.Type.Underlying().(*types.Map)
			if !ok {
				return true
			}
			_ = mt
			n++
			site := fmt.Sprintf("%s:%d", base, pkg.Fset.Position(rs.Pos()).Line)
			// for k, v := range m { body }  ==>
			// for _, k := range vorder.Keys("site", m) { v := m[k]; body }
			keyIdent := rs.Key
			valIdent := rs.Value
			mexpr := rs.X
			if rs.Tok != token.DEFINE {
				die("%s: map range without := is not supported", site)
			}
			kname := "_vk"
			if id, ok := keyIdent.(*ast.Ident); ok && id.Name != "_" {
				kname = id.Name
			}
			call := &ast.CallExpr{
				Fun:  &ast.SelectorExpr{X: ast.NewIdent("vorder"), Sel: ast.NewIdent("Keys")},
				Args: []ast.Expr{&ast.BasicLit{Kind: token.STRING, Value: fmt.Sprintf("%q", site)}, mexpr},
			}
			rs.Key = ast.NewIdent("_")
			rs.Value = ast.NewIdent(kname)
			rs.X = call
			if valIdent != nil {
				if id, ok := valIdent.(*ast.Ident); !ok || id.Name != "_" {
					assign := &ast.AssignStmt{Lhs: []ast.Expr{valIdent}, Tok: token.DEFINE,
						Rhs: []ast.Expr{&ast.IndexExpr{X: mexpr, Index: ast.NewIdent(kname)}}}
					rs.Body.List = append([]ast.Stmt{assign}, rs.Body.List...)
				}
			}
			return true
		})
		if n == 0 {
			if allFiles {
				continue
			}
			die("%s: no map range found (transformation does not apply to this tree)", base)
		}
		// add import
		addImport(file, "verif/harness/vorder")
		var buf bytes.Buffer
		if err := format.Node(&buf, pkg.Fset, file); err != nil {
			die("format %s: %v", base, err)
		}
		out := filepath.Join(outdir, strings.ReplaceAll(strings.TrimPrefix(name, "/"), "/", "_"))
		if err := os.WriteFile(out, buf.Bytes(), 0o644); err != nil {
			die("%v", err)
		}
		repl[name] = out
		fmt.Fprintf(os.Stderr, "ovgen: %s: %d map range(s) rewritten\n", base, n)
	}
	for f := range want {
		die("file %s not found in package %s", f, pkgdir)
	}
	writeOverlay(ovpath, repl)
}

func addImport(file *ast.File, path string) {
	spec := &ast.ImportSpec{Path: &ast.BasicLit{Kind: token.STRING, Value: fmt.Sprintf("%q", path)}}
	for _, d := range file.Decls {
		if gd, ok := d.(*ast.GenDecl); ok && gd.Tok == token.IMPORT {
			gd.Specs = append(gd.Specs, spec)
			if !gd.Lparen.IsValid() {
				gd.Lparen = gd.Pos()
				gd.Rparen = gd.End()
			}
			file.Imports = append(file.Imports, spec)
			return
		}
	}
	gd := &ast.GenDecl{Tok: token.IMPORT, Specs: []ast.Spec{spec}}
	file.Decls = append([]ast.Decl{gd}, file.Decls...)
	file.Imports = append(file.Imports, spec)
}

// constScale: ovgen const <outdir> <overlay.json> <file>:<name>=<value>...
// rewrites the value of a package-level constant/variable declaration
// `name = <expr>` textually (exactly one match required).
func constScale(args []string) {
	if len(args) < 3 {
		die("usage: const <outdir> <overlay.json> file:name=value...")
	}
	outdir, ovpath := args[0], args[1]
	os.MkdirAll(outdir, 0o755)
	repl := map[string]string{}
	content := map[string]string{}
	for _, a := range args[2:] {
		i := strings.Index(a, ":")
		j := strings.Index(a, "=")
		if i < 0 || j < i {
			die("bad spec %s", a)
		}
		file, name, val := a[:i], a[i+1:j], a[j+1:]
		src, ok := content[file]
		if !ok {
			b, err := os.ReadFile(file)
			if err != nil {
				die("%v", err)
			}
			src = string(b)
		}
		lines := strings.Split(src, "\n")
		hits := 0
		for li, l := range lines {
			t := strings.TrimSpace(l)
			if strings.HasPrefix(t, name+" =") || strings.HasPrefix(t, name+" uint32 =") || strings.HasPrefix(t, "const "+name+" =") {
				k := strings.Index(l, "=")
				lines[li] = l[:k+1] + " " + val
				hits++
			}
		}
		if hits != 1 {
			die("%s: %d declarations of %s (need exactly 1)", file, hits, name)
		}
		content[file] = strings.Join(lines, "\n")
	}
	for file, src := range content {
		out := filepath.Join(outdir, strings.ReplaceAll(strings.TrimPrefix(file, "/"), "/", "_"))
		if err := os.WriteFile(out, []byte(src), 0o644); err != nil {
			die("%v", err)
		}
		repl[file] = out
	}
	writeOverlay(ovpath, repl)
}

// syncShim: ovgen syncshim <outdir> <overlay.json> <importpath> <dir>...:
// in every non-test .go file of the directories that imports "sync", rewrite
// that import to `sync "<importpath>"`. Chains onto an existing overlay (the
// already replaced content is transformed).
func syncShim(args []string) {
	if len(args) < 4 {
		die("usage: syncshim <outdir> <overlay.json> <importpath> <dir>...")
	}
	outdir, ovpath, imp, dirs := args[0], args[1], args[2], args[3:]
	os.MkdirAll(outdir, 0o755)
	repl := readOverlay(ovpath)
	total := 0
	for _, dir := range dirs {
		ents, err := os.ReadDir(dir)
		if err != nil {
			die("%v", err)
		}
		for _, e := range ents {
			n := e.Name()
			if e.IsDir() || !strings.HasSuffix(n, ".go") || strings.HasSuffix(n, "_test.go") {
				continue
			}
			path := filepath.Join(dir, n)
			src := path
			if r, ok := repl[path]; ok {
				src = r
			}
			b, err := os.ReadFile(src)
			if err != nil {
				die("%v", err)
			}
			lines := strings.Split(string(b), "\n")
			hit := 0
			for i, l := range lines {
				t := strings.TrimSpace(l)
				if t == `"sync"` {
					lines[i] = "\tsync \"" + imp + "\""
					hit++
				} else if t == `import "sync"` {
					lines[i] = "import sync \"" + imp + "\""
					hit++
				}
			}
			if hit == 0 {
				continue
			}
			out := filepath.Join(outdir, strings.ReplaceAll(strings.TrimPrefix(path, "/"), "/", "_"))
			if err := os.WriteFile(out, []byte(strings.Join(lines, "\n")), 0o644); err != nil {
				die("%v", err)
			}
			repl[path] = out
			total += hit
		}
	}
	if total == 0 {
		die("syncshim: no \"sync\" import found in %v", dirs)
	}
	fmt.Fprintf(os.Stderr, "ovgen: sync import rewritten in %d file(s)\n", total)
	writeOverlay(ovpath, repl)
}
